// C22 driver: multivariate integer polynomials (MIntPoly).  Reads one case per line, runs it on
// the library in a forked child and prints the same canonical line as the extracted model
// (ocaml/c22_main.ml), followed by "\t#ORACLE:<what>" when the result disagrees with an
// independent reference implementation (polynomials as maps  {var -> exponent} -> coefficient,
// exponents as 64-bit numbers, no translators, no positional vectors).
//
//   poly   := vars '/' terms        vars  := '-' | name(,name)*      (order given to from_dict)
//                                   terms := '-' | key:hex(;key:hex)*   key := '_' | e(.e)*
//   cases  := fd P | add P Q | sub P Q | mul P Q | neg P | pow P n | eval P name=hex(,name=hex)*
//             | eq P Q | eq3 P Q R | rec vars vars | rt P | symb P Q
#include <symengine/basic.h>
#include <symengine/symbol.h>
#include <symengine/integer.h>
#include <symengine/add.h>
#include <symengine/mul.h>
#include <symengine/pow.h>
#include <symengine/visitor.h>
#include <symengine/symengine_exception.h>
#include <symengine/polys/msymenginepoly.h>
#include <symengine/polys/basic_conversions.h>
#include "common.h"
#include <map>
#include <set>
#include <algorithm>
using namespace SymEngine;

typedef unsigned long long u64;
typedef std::map<std::string, u64> RMono;           // only non-zero exponents
typedef std::map<RMono, integer_class> RPoly;       // only non-zero coefficients

static std::vector<std::string> split(const std::string &s, char c)
{
    std::vector<std::string> v;
    std::string cur;
    for (char ch : s) {
        if (ch == c) {
            v.push_back(cur);
            cur.clear();
        } else
            cur.push_back(ch);
    }
    v.push_back(cur);
    return v;
}

static integer_class hex_to_int(const std::string &s0)
{
    bool neg = !s0.empty() && s0[0] == '-';
    std::string s = neg ? s0.substr(1) : s0;
    integer_class r(0);
    for (char c : s) {
        int d = (c >= '0' && c <= '9') ? c - '0' : (c >= 'a' && c <= 'f') ? c - 'a' + 10 : c - 'A' + 10;
        r = r * integer_class(16) + integer_class(d);
    }
    return neg ? integer_class(-r) : r;
}
static std::string int_to_hex(const integer_class &i)
{
    return mp_get_hex_str(i);
}

struct Lit {
    std::vector<std::string> vars;
    std::vector<std::pair<std::vector<unsigned>, integer_class>> terms;
};

static Lit parse_lit(const std::string &s)
{
    Lit l;
    size_t p = s.find('/');
    std::string vs = s.substr(0, p), ts = s.substr(p + 1);
    if (vs != "-")
        l.vars = split(vs, ',');
    if (ts != "-") {
        for (auto &t : split(ts, ';')) {
            size_t q = t.find(':');
            std::string ks = t.substr(0, q);
            std::vector<unsigned> k;
            if (ks != "_")
                for (auto &e : split(ks, '.'))
                    k.push_back((unsigned)std::stoul(e));
            l.terms.push_back({k, hex_to_int(t.substr(q + 1))});
        }
    }
    return l;
}

static vec_basic syms(const std::vector<std::string> &names)
{
    vec_basic v;
    for (auto &n : names)
        v.push_back(symbol(n));
    return v;
}

static RCP<const MIntPoly> build(const Lit &l)
{
    umap_uvec_mpz d;
    for (auto &t : l.terms)
        d.insert({t.first, t.second});
    return MIntPoly::from_dict(syms(l.vars), std::move(d));
}

// the reference polynomial denoted by the text (first occurrence of a key wins, as in a map)
static RPoly ref_of_lit(const Lit &l)
{
    RPoly r;
    std::set<std::vector<unsigned>> seen;
    for (auto &t : l.terms) {
        if (!seen.insert(t.first).second)
            continue;
        if (t.second == 0)
            continue;
        RMono m;
        for (size_t i = 0; i < l.vars.size() && i < t.first.size(); i++)
            if (t.first[i] != 0)
                m[l.vars[i]] += t.first[i];
        r[m] += t.second;
        if (r[m] == 0)
            r.erase(m);
    }
    return r;
}

static std::string var_name(const RCP<const Basic> &b)
{
    if (is_a<Symbol>(*b))
        return down_cast<const Symbol &>(*b).get_name();
    return "?" + b->__str__();
}

static RPoly ref_of_poly(const MIntPoly &p)
{
    RPoly r;
    std::vector<std::string> names;
    for (auto &v : p.get_vars())
        names.push_back(var_name(v));
    for (auto &t : p.get_poly().dict_) {
        RMono m;
        for (size_t i = 0; i < names.size() && i < t.first.size(); i++)
            if (t.first[i] != 0)
                m[names[i]] += t.first[i];
        r[m] += t.second;
    }
    for (auto it = r.begin(); it != r.end();)
        if (it->second == 0)
            it = r.erase(it);
        else
            ++it;
    return r;
}

static RPoly ref_add(const RPoly &a, const RPoly &b, int sign)
{
    RPoly r = a;
    for (auto &t : b) {
        if (sign > 0)
            r[t.first] += t.second;
        else
            r[t.first] -= t.second;
        if (r[t.first] == 0)
            r.erase(t.first);
    }
    return r;
}
static RPoly ref_mul(const RPoly &a, const RPoly &b)
{
    RPoly r;
    for (auto &x : a)
        for (auto &y : b) {
            RMono m = x.first;
            for (auto &e : y.first)
                m[e.first] += e.second;
            r[m] += x.second * y.second;
        }
    for (auto it = r.begin(); it != r.end();)
        if (it->second == 0)
            it = r.erase(it);
        else
            ++it;
    return r;
}
static std::string show_ref(const RPoly &p)
{
    std::ostringstream o;
    bool first = true;
    for (auto &t : p) {
        if (!first)
            o << " + ";
        first = false;
        o << int_to_hex(t.second);
        for (auto &e : t.first)
            o << "*" << e.first << "^" << e.second;
    }
    if (first)
        o << "0";
    return o.str();
}

// canonical text of a library polynomial: vars in set order / terms sorted by key
static std::string show_poly(const MIntPoly &p)
{
    std::ostringstream o;
    bool first = true;
    for (auto &v : p.get_vars()) {
        if (!first)
            o << ",";
        first = false;
        o << var_name(v);
    }
    if (first)
        o << "-";
    o << "/";
    std::vector<std::pair<std::vector<unsigned>, std::string>> ts;
    for (auto &t : p.get_poly().dict_)
        ts.push_back({t.first, int_to_hex(t.second)});
    std::sort(ts.begin(), ts.end());
    if (ts.empty())
        o << "-";
    first = true;
    for (auto &t : ts) {
        if (!first)
            o << ";";
        first = false;
        if (t.first.empty())
            o << "_";
        for (size_t i = 0; i < t.first.size(); i++)
            o << (i ? "." : "") << t.first[i];
        o << ":" << t.second;
    }
    return o.str();
}

// structural sanity of a result: keys have one entry per generator, no zero coefficient,
// generators are the union of the operands' generators (in the library's set order)
static void check_shape(std::ostringstream &oracle, const MIntPoly &r, const std::vector<std::string> &va,
                        const std::vector<std::string> &vb)
{
    set_basic u;
    for (auto &n : va)
        u.insert(symbol(n));
    for (auto &n : vb)
        u.insert(symbol(n));
    if (!unified_eq(u, r.get_vars()))
        oracle << " generators of the result are not the union of the operands' generators;";
    if (r.get_poly().vec_size != r.get_vars().size())
        oracle << " vec_size " << r.get_poly().vec_size << " != number of generators;";
    for (auto &t : r.get_poly().dict_) {
        if (t.first.size() != r.get_vars().size())
            oracle << " key of length " << t.first.size() << " for " << r.get_vars().size() << " generators;";
        if (t.second == 0)
            oracle << " zero coefficient stored;";
    }
}

static std::string hex64(hash_t h)
{
    char buf[32];
    snprintf(buf, sizeof buf, "%llx", (unsigned long long)h);
    return buf;
}

static std::string run_case(const std::string &line)
{
    std::vector<std::string> t = verif::split_ws(line);
    std::ostringstream o, oracle;
    if (t.empty())
        return "EMPTY";
    const std::string &op = t[0];
    try {
        if (op == "fd" || op == "neg" || op == "rt") {
            Lit la = parse_lit(t[1]);
            RCP<const MIntPoly> a = build(la);
            RPoly ra = ref_of_lit(la);
            if (op == "fd") {
                o << show_poly(*a);
                check_shape(oracle, *a, la.vars, {});
                if (ref_of_poly(*a) != ra)
                    oracle << " from_dict built " << show_ref(ref_of_poly(*a)) << " instead of " << show_ref(ra);
            } else if (op == "neg") {
                RCP<const MIntPoly> r = neg_mpoly(*a);
                o << show_poly(*r);
                check_shape(oracle, *r, la.vars, {});
                if (ref_of_poly(*r) != ref_add(RPoly(), ra, -1))
                    oracle << " neg gave " << show_ref(ref_of_poly(*r));
            } else {
                // round trip through expressions, with the same generators and with detected ones
                o << show_poly(*a);
                RCP<const Basic> b = a->as_symbolic();
                set_basic gens = a->get_vars();
                RCP<const MIntPoly> q = from_basic<MIntPoly>(b, gens);
                if (show_poly(*q) != show_poly(*a))
                    oracle << " from_basic(as_symbolic(p), gens) = " << show_poly(*q) << ";";
                RCP<const MIntPoly> q2 = from_basic<MIntPoly>(b);
                if (ref_of_poly(*q2) != ra)
                    oracle << " from_basic(as_symbolic(p)) denotes " << show_ref(ref_of_poly(*q2)) << ";";
            }
        } else if (op == "add" || op == "sub" || op == "mul" || op == "symb") {
            Lit la = parse_lit(t[1]), lb = parse_lit(t[2]);
            RCP<const MIntPoly> a = build(la), b = build(lb);
            RPoly ra = ref_of_lit(la), rb = ref_of_lit(lb);
            RCP<const MIntPoly> r;
            RPoly want;
            if (op == "add") {
                r = add_mpoly(*a, *b);
                want = ref_add(ra, rb, 1);
            } else if (op == "sub") {
                r = sub_mpoly(*a, *b);
                want = ref_add(ra, rb, -1);
            } else {
                r = mul_mpoly(*a, *b);
                want = ref_mul(ra, rb);
            }
            o << show_poly(*r);
            check_shape(oracle, *r, la.vars, lb.vars);
            if (ref_of_poly(*r) != want)
                oracle << " " << op << " gave " << show_ref(ref_of_poly(*r)) << " instead of " << show_ref(want) << ";";
            if (op == "symb") {
                RCP<const Basic> lhs = expand(r->as_symbolic());
                RCP<const Basic> rhs = expand(mul(a->as_symbolic(), b->as_symbolic()));
                if (!eq(*lhs, *rhs))
                    oracle << " as_symbolic(a*b) = " << lhs->__str__() << " but as_symbolic(a)*as_symbolic(b) = "
                           << rhs->__str__() << ";";
                RCP<const Basic> ls = expand(add_mpoly(*a, *b)->as_symbolic());
                RCP<const Basic> rs = expand(add(a->as_symbolic(), b->as_symbolic()));
                if (!eq(*ls, *rs))
                    oracle << " as_symbolic(a+b) = " << ls->__str__() << " but as_symbolic(a)+as_symbolic(b) = "
                           << rs->__str__() << ";";
            }
        } else if (op == "pow") {
            Lit la = parse_lit(t[1]);
            unsigned n = (unsigned)std::stoul(t[2]);
            RCP<const MIntPoly> a = build(la);
            RPoly ra = ref_of_lit(la);
            RCP<const MIntPoly> r = pow_mpoly(*a, n);
            o << show_poly(*r);
            check_shape(oracle, *r, la.vars, {});
            RPoly want, sq = ra;
            want[RMono()] = integer_class(1);
            for (unsigned m = n; m != 0; m >>= 1) {
                if (m & 1)
                    want = ref_mul(want, sq);
                if (m > 1)
                    sq = ref_mul(sq, sq);
            }
            if (ref_of_poly(*r) != want)
                oracle << " pow gave " << show_ref(ref_of_poly(*r)) << " instead of " << show_ref(want) << ";";
        } else if (op == "eval") {
            Lit la = parse_lit(t[1]);
            RCP<const MIntPoly> a = build(la);
            RPoly ra = ref_of_lit(la);
            std::map<RCP<const Basic>, integer_class, RCPBasicKeyLess> vals;
            std::map<std::string, integer_class> rvals;
            if (t.size() > 2 && t[2] != "-")
                for (auto &kv : split(t[2], ',')) {
                    size_t q = kv.find('=');
                    std::string n = kv.substr(0, q);
                    integer_class v = hex_to_int(kv.substr(q + 1));
                    vals.insert({symbol(n), v});
                    rvals.insert({n, v});
                }
            integer_class r = a->eval(vals);
            o << int_to_hex(r);
            integer_class want(0);
            for (auto &tm : ra) {
                integer_class term = tm.second;
                for (auto &e : tm.first) {
                    integer_class pw;
                    mp_pow_ui(pw, rvals[e.first], (unsigned long)e.second);
                    term *= pw;
                }
                want += term;
            }
            if (r != want)
                oracle << " eval gave " << int_to_hex(r) << " instead of " << int_to_hex(want) << ";";
        } else if (op == "eq") {
            Lit la = parse_lit(t[1]), lb = parse_lit(t[2]);
            RCP<const MIntPoly> a = build(la), b = build(lb);
            bool e = a->__eq__(*b), e2 = b->__eq__(*a);
            hash_t ha = a->__hash__(), hb = b->__hash__();
            o << "eq=" << e << e2 << " h=" << hex64(ha) << "," << hex64(hb);
            bool same = ref_of_lit(la) == ref_of_lit(lb);
            if (e != e2)
                oracle << " __eq__ is not symmetric;";
            if (e && !same)
                oracle << " eq-unsound: __eq__ is true for " << show_ref(ref_of_lit(la)) << " and "
                       << show_ref(ref_of_lit(lb)) << ";";
            if (e && ha != hb)
                oracle << " eq-hash: __eq__ is true but the hashes differ;";
            if (!a->__eq__(*a))
                oracle << " __eq__ is not reflexive;";
        } else if (op == "eq3") {
            Lit la = parse_lit(t[1]), lb = parse_lit(t[2]), lc = parse_lit(t[3]);
            RCP<const MIntPoly> a = build(la), b = build(lb), c = build(lc);
            bool ab = a->__eq__(*b), bc = b->__eq__(*c), ac = a->__eq__(*c);
            o << "eq3=" << ab << bc << ac;
            if (ab && bc && !ac)
                oracle << " eq-trans: a == b and b == c but not a == c;";
        } else if (op == "rec") {
            std::vector<std::string> n1, n2;
            if (t[1] != "-")
                n1 = split(t[1], ',');
            if (t[2] != "-")
                n2 = split(t[2], ',');
            set_basic s1, s2, s;
            for (auto &n : n1)
                s1.insert(symbol(n));
            for (auto &n : n2)
                s2.insert(symbol(n));
            vec_uint v1, v2;
            unsigned sz = reconcile(v1, v2, s, s1, s2);
            bool first = true;
            for (auto &v : s) {
                o << (first ? "" : ",") << var_name(v);
                first = false;
            }
            o << "|";
            for (size_t i = 0; i < v1.size(); i++)
                o << (i ? "," : "") << v1[i];
            o << "|";
            for (size_t i = 0; i < v2.size(); i++)
                o << (i ? "," : "") << v2[i];
            o << "|" << sz;
            // oracle: s is the union; v1[i] / v2[i] is the position in s of the i-th element of s1 / s2
            std::vector<RCP<const Basic>> sv(s.begin(), s.end());
            std::set<std::string> names, un;
            for (auto &v : sv)
                names.insert(var_name(v));
            un.insert(n1.begin(), n1.end());
            un.insert(n2.begin(), n2.end());
            if (names != un || sv.size() != un.size() || sz != sv.size())
                oracle << " output set is not the union;";
            auto chk = [&](const vec_uint &v, const set_basic &from, const char *nm) {
                if (v.size() != from.size()) {
                    oracle << " " << nm << " has " << v.size() << " entries for " << from.size() << " generators;";
                    return;
                }
                size_t i = 0;
                for (auto &x : from) {
                    if (v[i] >= sv.size() || !eq(*sv[v[i]], *x))
                        oracle << " " << nm << "[" << i << "] does not point at " << var_name(x) << ";";
                    i++;
                }
            };
            chk(v1, s1, "v1");
            chk(v2, s2, "v2");
        } else {
            return "BADOP";
        }
    } catch (...) {
        o << verif::exn_name();
    }
    std::string s = o.str();
    if (!oracle.str().empty())
        s += "\t#ORACLE:" + oracle.str();
    return s;
}

// Cases are run in forked children, many cases per child (a fork per case is too slow on a loaded
// machine): the child writes one "<result>\n" per finished case; when it dies (signal / alarm) the
// case it was working on gets CRASH:<sig> / HANG and a new child continues with the next case.
int main()
{
    std::vector<std::string> lines;
    std::string line;
    while (std::getline(std::cin, line))
        lines.push_back(line);
    size_t n = lines.size(), start = 0;
    std::vector<std::string> results(n);
    while (start < n) {
        int fd[2];
        if (pipe(fd) != 0)
            return 2;
        fflush(stdout);
        pid_t pid = fork();
        if (pid == 0) {
            close(fd[0]);
            struct rlimit rl;
            rl.rlim_cur = rl.rlim_max = 0;
            setrlimit(RLIMIT_CORE, &rl);
            for (size_t i = start; i < n; i++) {
                // pow with exponent 0 is expected not to return: keep its time-out short
                unsigned tmo = 20;
                std::vector<std::string> t = verif::split_ws(lines[i]);
                if (t.size() >= 3 && t[0] == "pow" && t[2] == "0")
                    tmo = 2;
                alarm(tmo);
                std::string r;
                try {
                    r = run_case(lines[i]);
                } catch (...) {
                    r = "UNCAUGHT";
                }
                alarm(0);
                r += "\n";
                size_t off = 0;
                while (off < r.size()) {
                    ssize_t w = write(fd[1], r.data() + off, r.size() - off);
                    if (w <= 0)
                        _exit(3);
                    off += (size_t)w;
                }
            }
            close(fd[1]);
            _exit(0);
        }
        close(fd[1]);
        std::string out;
        char buf[65536];
        ssize_t r;
        while ((r = read(fd[0], buf, sizeof buf)) > 0)
            out.append(buf, (size_t)r);
        close(fd[0]);
        int status = 0;
        waitpid(pid, &status, 0);
        size_t done = 0, pos = 0;
        while (true) {
            size_t nl = out.find('\n', pos);
            if (nl == std::string::npos)
                break;
            if (start + done < n)
                results[start + done] = out.substr(pos, nl - pos);
            done++;
            pos = nl + 1;
        }
        if (start + done >= n)
            break;
        std::string partial = out.substr(pos);
        if (WIFSIGNALED(status)) {
            int sig = WTERMSIG(status);
            results[start + done] = partial + (sig == SIGALRM ? std::string("HANG") : "CRASH:" + std::to_string(sig));
        } else {
            results[start + done] = partial + "EXIT:" + std::to_string(WEXITSTATUS(status));
        }
        start = start + done + 1;
    }
    for (auto &r : results)
        std::cout << r << "\n";
    return 0;
}
