// C27 driver: set operations of symengine/sets.cpp, set_funcs.cpp on the library.
//
// input line (TAB separated):   <op> \t <recipe_1> \t ... \t <recipe_n>
//   op = munion | misect | mcompl      member functions  a->set_union(b), a->set_intersection(b),
//                                      a->set_complement(b)   (= b \ a)
//        funion | fisect               free functions set_union(set_set), set_intersection(set_set)
//                                      over all n operands
//        fcompl                        set_complement(a, b)   (= a \ b)
//        helper                        set_complement_helper(container a, universe b) (= b \ a)
//        contains                      a->contains(<number recipe b>)
//        sup | inf | boundary | interior | closure          (one operand)
//   recipes: the grammar of recipe.h (numbers, interval, fset, atoms, union, isect, compl) plus
//        (mu a b) (mi a b) (mc a b) (helper a b) (bnd a) (int a) (clo a)   -- nested operations
//        (rawunion a b ...) (rawisect a b ...) (rawcompl u c)      -- the public constructors
//
// output line (TAB separated):
//   D:<dump_1> ;; ... ;; <dump_n> \t R:<result> [\t #ORACLE:<what>]
//   result = dump of the returned set | N:<number dump> (sup/inf) | B:<dump> (contains)
//            | EXN:<k> | CRASH:<sig> | HANG ;   "OPERAND:<...>" when an operand recipe itself fails.
// The oracle evaluates the property on the library's own outputs: membership of every endpoint /
// element, the midpoints, the +-1/2 neighbours (all rational numbers, decided by the library's
// contains) in the result against the boolean combination of the memberships in the operands.
#include <symengine/basic.h>
#include <symengine/add.h>
#include <symengine/mul.h>
#include <symengine/pow.h>
#include <symengine/functions.h>
#include <symengine/logic.h>
#include <symengine/sets.h>
#include <symengine/complex.h>
#include <symengine/complex_double.h>
#include <symengine/real_double.h>
#include <symengine/infinity.h>
#include <symengine/nan.h>
#include <symengine/constants.h>
#include <symengine/visitor.h>
#include <symengine/symengine_exception.h>
#include "common.h"
#include "dump.h"
#include "recipe.h"
#include <set>
using namespace SymEngine;

static std::vector<std::string> split_tab(const std::string &s)
{
    std::vector<std::string> v;
    size_t st = 0;
    while (true) {
        size_t p = s.find('\t', st);
        if (p == std::string::npos) {
            v.push_back(s.substr(st));
            break;
        }
        v.push_back(s.substr(st, p - st));
        st = p + 1;
    }
    return v;
}

static RCP<const Set> eval_set(const verif::Sexp &e);

static RCP<const Basic> eval_any(const verif::Sexp &e)
{
    if (!e.is_atom && !e.kids.empty() && e.kids[0].is_atom) {
        const std::string &op = e.kids[0].atom;
        auto S = [&](size_t i) { return eval_set(e.kids.at(i)); };
        if (op == "mu") return S(1)->set_union(S(2));
        if (op == "mi") return S(1)->set_intersection(S(2));
        if (op == "mc") return S(1)->set_complement(S(2));
        if (op == "helper") return set_complement_helper(S(1), S(2));
        if (op == "bnd") return boundary(*S(1));
        if (op == "int") return interior(*S(1));
        if (op == "clo") return closure(*S(1));
        if (op == "compl") return set_complement(S(1), S(2));
        if (op == "union" || op == "isect" || op == "rawunion" || op == "rawisect") {
            set_set s;
            for (size_t i = 1; i < e.kids.size(); i++)
                s.insert(S(i));
            if (op == "union") return set_union(s);
            if (op == "isect") return set_intersection(s);
            if (s.size() < 2)
                throw std::runtime_error("raw container needs two distinct members");
            if (op == "rawunion") return make_rcp<const Union>(s);
            return make_rcp<const Intersection>(s);
        }
        if (op == "rawcompl") return make_rcp<const Complement>(S(1), S(2));
    }
    return verif::eval_recipe(e);
}

static RCP<const Set> eval_set(const verif::Sexp &e)
{
    return verif::as_set(eval_any(e));
}

// ---------------------------------------------------------------- oracle helpers
static void collect_consts(const Basic &b, std::set<rational_class> &out)
{
    if (is_a<Integer>(b)) {
        out.insert(rational_class(down_cast<const Integer &>(b).as_integer_class()));
        return;
    }
    if (is_a<Rational>(b)) {
        out.insert(down_cast<const Rational &>(b).as_rational_class());
        return;
    }
    for (const auto &a : b.get_args())
        collect_consts(*a, out);
}

static std::vector<rational_class> test_points(const std::set<rational_class> &cs)
{
    std::set<rational_class> pts;
    rational_class half(1, 2);
    if (cs.empty()) {
        for (int k = -2; k <= 2; k++) {
            pts.insert(rational_class(k));
            pts.insert(rational_class(k) + half);
        }
    }
    const rational_class *prev = nullptr;
    for (const auto &c : cs) {
        pts.insert(c);
        pts.insert(c - half);
        pts.insert(c + half);
        pts.insert(c - 1);
        pts.insert(c + 1);
        // the integers around c
        integer_class fl;
        mp_fdiv_q(fl, get_num(c), get_den(c));
        pts.insert(rational_class(fl));
        pts.insert(rational_class(fl + 1));
        if (prev) {
            pts.insert((*prev + c) / 2);
            pts.insert((2 * *prev + c) / 3);
        }
        prev = &c;
    }
    if (!cs.empty()) {
        pts.insert(*cs.begin() - 3);
        pts.insert(*cs.rbegin() + 3);
        pts.insert(rational_class(0));
        pts.insert(rational_class(1));
        pts.insert(rational_class(-1));
    }
    return std::vector<rational_class>(pts.begin(), pts.end());
}

static RCP<const Number> num_of(const rational_class &q)
{
    return Rational::from_mpq(q);
}

// library's contains on a rational point: 1 true, 0 false, -1 no definite answer
static int member(const RCP<const Set> &s, const rational_class &q)
{
    try {
        RCP<const Boolean> b = s->contains(num_of(q));
        if (is_a<BooleanAtom>(*b))
            return down_cast<const BooleanAtom &>(*b).get_val() ? 1 : 0;
        return -1;
    } catch (...) {
        return -1;
    }
}

static std::string qstr(const rational_class &q)
{
    std::ostringstream o;
    o << q;
    return o.str();
}

struct Case {
    std::string op;
    std::vector<verif::Sexp> recipes;
};

static bool is_setop(const std::string &op)
{
    return op == "munion" || op == "misect" || op == "mcompl" || op == "funion" || op == "fisect"
           || op == "fcompl" || op == "helper";
}

static RCP<const Basic> apply_op(const std::string &op, const std::vector<RCP<const Basic>> &a)
{
    auto S = [&](size_t i) { return verif::as_set(a.at(i)); };
    if (op == "munion") return S(0)->set_union(S(1));
    if (op == "misect") return S(0)->set_intersection(S(1));
    if (op == "mcompl") return S(0)->set_complement(S(1));
    if (op == "fcompl") return set_complement(S(0), S(1));
    if (op == "helper") return set_complement_helper(S(0), S(1));
    if (op == "funion" || op == "fisect") {
        set_set s;
        for (size_t i = 0; i < a.size(); i++)
            s.insert(S(i));
        return op == "funion" ? set_union(s) : set_intersection(s);
    }
    if (op == "contains") return S(0)->contains(a.at(1));
    if (op == "sup") return sup(*S(0));
    if (op == "inf") return inf(*S(0));
    if (op == "boundary") return boundary(*S(0));
    if (op == "interior") return interior(*S(0));
    if (op == "closure") return closure(*S(0));
    throw std::runtime_error("unknown op " + op);
}

// expected membership in the result from the memberships in the operands (-1 = unknown)
static int expected(const std::string &op, const std::vector<int> &m)
{
    for (int x : m)
        if (x < 0)
            return -1;
    if (op == "munion" || op == "funion") {
        for (int x : m)
            if (x)
                return 1;
        return 0;
    }
    if (op == "misect" || op == "fisect") {
        for (int x : m)
            if (!x)
                return 0;
        return 1;
    }
    if (op == "mcompl" || op == "helper") return (m[1] && !m[0]) ? 1 : 0;
    if (op == "fcompl") return (m[0] && !m[1]) ? 1 : 0;
    return -1;
}

static std::string operands_part(const Case &c, std::vector<RCP<const Basic>> &vals)
{
    std::string s = "D:";
    for (size_t i = 0; i < c.recipes.size(); i++) {
        RCP<const Basic> v = eval_any(c.recipes[i]);
        vals.push_back(v);
        s += (i ? " ;; " : "") + verif::dump(*v);
    }
    return s;
}

static std::string result_part(const Case &c, const std::vector<RCP<const Basic>> &vals, RCP<const Basic> &res)
{
    try {
        res = apply_op(c.op, vals);
    } catch (...) {
        return "R:" + verif::exn_name();
    }
    if (c.op == "sup" || c.op == "inf")
        return "R:N:" + verif::dump(*res);
    if (c.op == "contains")
        return "R:B:" + verif::dump(*res);
    return "R:" + verif::dump(*res);
}

static std::string oracle_part(const Case &c, const std::vector<RCP<const Basic>> &vals, const RCP<const Basic> &res)
{
    std::ostringstream o;
    std::set<rational_class> cs;
    for (const auto &v : vals)
        collect_consts(*v, cs);
    if (!res.is_null())
        collect_consts(*res, cs);
    if (cs.size() > 40)
        return "";
    std::vector<rational_class> pts = test_points(cs);
    int bad = 0;
    if (is_setop(c.op) && is_a_Set(*res)) {
        RCP<const Set> R = rcp_static_cast<const Set>(res);
        for (const auto &q : pts) {
            std::vector<int> m;
            for (const auto &v : vals)
                m.push_back(member(rcp_static_cast<const Set>(v), q));
            int e = expected(c.op, m);
            int r = member(R, q);
            if (e >= 0 && r >= 0 && e != r && bad++ < 3)
                o << " member: point " << qstr(q) << " result.contains = " << r << " but operands give " << e << ";";
        }
    } else if ((c.op == "sup" || c.op == "inf") && is_a_Number(*res)) {
        RCP<const Set> A = rcp_static_cast<const Set>(vals[0]);
        for (const auto &q : pts) {
            if (member(A, q) != 1)
                continue;
            RCP<const Boolean> ok = c.op == "sup" ? Le(num_of(q), res) : Le(res, num_of(q));
            if (eq(*ok, *boolFalse) && bad++ < 3)
                o << " bound: member " << qstr(q) << " lies beyond the returned " << c.op << ";";
        }
    } else if ((c.op == "boundary" || c.op == "interior" || c.op == "closure") && is_a_Set(*res)) {
        RCP<const Set> A = rcp_static_cast<const Set>(vals[0]);
        RCP<const Set> R = rcp_static_cast<const Set>(res);
        for (const auto &q : pts) {
            int a = member(A, q), r = member(R, q);
            if (a < 0 || r < 0)
                continue;
            if (c.op == "interior" && r == 1 && a == 0 && bad++ < 3)
                o << " interior: point " << qstr(q) << " in the interior but not in the set;";
            if (c.op == "closure" && r == 0 && a == 1 && bad++ < 3)
                o << " closure: point " << qstr(q) << " in the set but not in the closure;";
        }
    } else if (c.op == "contains") {
        // a definite answer must agree with the answers of the parts (checked by the model side);
        // here: Union/Intersection/Complement node against its own children
        RCP<const Set> A = rcp_static_cast<const Set>(vals[0]);
        if (is_a<BooleanAtom>(*res) && is_a_Number(*vals[1])
            && (is_a<Union>(*A) || is_a<Intersection>(*A) || is_a<Complement>(*A))) {
            bool r = down_cast<const BooleanAtom &>(*res).get_val();
            std::vector<int> m;
            for (const auto &ch : A->get_args()) {
                try {
                    RCP<const Boolean> b = rcp_static_cast<const Set>(ch)->contains(vals[1]);
                    m.push_back(is_a<BooleanAtom>(*b) ? (down_cast<const BooleanAtom &>(*b).get_val() ? 1 : 0) : -1);
                } catch (...) {
                    m.push_back(-1);
                }
            }
            int e = is_a<Union>(*A) ? expected("funion", m)
                                    : is_a<Intersection>(*A) ? expected("fisect", m) : expected("fcompl", m);
            if (e >= 0 && e != (r ? 1 : 0))
                o << " contains: " << (r ? 1 : 0) << " but the members' answers give " << e << ";";
        }
    }
    return o.str();
}

static Case parse_case(const std::string &line)
{
    Case c;
    std::vector<std::string> f = split_tab(line);
    c.op = f.at(0);
    for (size_t i = 1; i < f.size(); i++)
        c.recipes.push_back(verif::parse_sexp(f[i]));
    return c;
}

// One forked child runs the cases in order and streams one line per case through a pipe
// (operands first, then the result, then the oracle); when the child dies (signal / alarm) the
// parent attributes the failure to the stage that was running and resumes after that case.
static void wr(int fd, const std::string &s)
{
    size_t off = 0;
    while (off < s.size()) {
        ssize_t w = write(fd, s.data() + off, s.size() - off);
        if (w <= 0)
            _exit(3);
        off += (size_t)w;
    }
}

static void child_run(int fd, const std::vector<std::string> &lines, size_t from)
{
    for (size_t k = from; k < lines.size(); k++) {
        Case c;
        try {
            if (lines[k].empty())
                throw std::runtime_error("empty");
            c = parse_case(lines[k]);
        } catch (...) {
            wr(fd, "BADLINE\n");
            continue;
        }
        std::vector<RCP<const Basic>> vals;
        std::string ops;
        alarm(5);
        try {
            ops = operands_part(c, vals);
        } catch (...) {
            wr(fd, "OPERAND:" + verif::exn_name() + "\n");
            continue;
        }
        if (ops.find("Opaque") != std::string::npos) {
            wr(fd, "OPERAND:Opaque\n");
            continue;
        }
        wr(fd, ops + "\t");
        alarm(3);
        RCP<const Basic> res;
        std::string r = result_part(c, vals, res);
        wr(fd, r);
        if (!res.is_null()) {
            alarm(20);
            std::string orc;
            try {
                orc = oracle_part(c, vals, res);
            } catch (...) {
                orc = "";
            }
            if (!orc.empty())
                wr(fd, "\t#ORACLE:" + orc);
        }
        wr(fd, "\n");
    }
}

int main()
{
    std::vector<std::string> lines;
    std::string line;
    while (std::getline(std::cin, line))
        lines.push_back(line);
    size_t i = 0;
    while (i < lines.size()) {
        int fd[2];
        if (pipe(fd) != 0)
            return 2;
        fflush(stdout);
        pid_t pid = fork();
        if (pid == 0) {
            close(fd[0]);
            struct rlimit rl;
            rl.rlim_cur = rl.rlim_max = 0;
            setrlimit(RLIMIT_CORE, &rl);
            // unbounded recursion shows up quickly and deterministically as SIGSEGV: 1 MiB of stack
            // is far more than any terminating computation on the small inputs used needs
            rl.rlim_cur = rl.rlim_max = 1 << 20;
            setrlimit(RLIMIT_STACK, &rl);
            child_run(fd[1], lines, i);
            close(fd[1]);
            _exit(0);
        }
        close(fd[1]);
        std::string buf;
        char tmp[65536];
        ssize_t r;
        while ((r = read(fd[0], tmp, sizeof tmp)) > 0)
            buf.append(tmp, (size_t)r);
        close(fd[0]);
        int status = 0;
        waitpid(pid, &status, 0);
        size_t st = 0, done = 0;
        while (true) {
            size_t p = buf.find('\n', st);
            if (p == std::string::npos)
                break;
            std::cout << buf.substr(st, p - st) << "\n";
            st = p + 1;
            done++;
        }
        i += done;
        if (i >= lines.size())
            break;
        // the child died while working on case i
        std::string part = buf.substr(st);
        std::string why = "CRASH:?";
        if (WIFSIGNALED(status))
            why = WTERMSIG(status) == SIGALRM ? "HANG" : "CRASH:" + std::to_string(WTERMSIG(status));
        else
            why = "EXIT:" + std::to_string(WEXITSTATUS(status));
        if (part.compare(0, 2, "D:") != 0)
            std::cout << "OPERAND:" << why << "\n";
        else if (part.find("\tR:") == std::string::npos)
            std::cout << part << "R:" << why << "\n";
        else
            std::cout << part << "\n"; // the operation finished; only the oracle died
        i++;
    }
    return 0;
}
