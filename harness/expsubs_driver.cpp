// C09 / C11 driver (expand.cpp, pow.cpp multinomial_coefficients_mpz, subs.h).
// Input lines (fields separated by " ;; "; recipes in harness/recipe.h syntax):
//   X <deep> ;; <recipe e>
//       r = expand(e, deep), r2 = expand(r, deep).  Output
//           dump(e) ;; dump(r) ;; hash(r) ;; idem ;; complete ;; npoints
//       (idem = eq(r, r2), complete = the driver's own walker finds no Mul / positive-integer Pow of an
//       Add outside function arguments, npoints = rational points at which e and r were both evaluated)
//       + "\t#ORACLE:idem ;; dump(r2)"  "\t#ORACLE:complete"  "\t#ORACLE:value ;; <point>"
//   D <recipe p> ;; <recipe q>
//       ep = expand(p), eq = expand(q); the driver computes the coefficient dictionaries of the INPUT
//       trees p, q, and of ep, with its own sparse polynomial arithmetic over Q (atoms that are not
//       sums / products / non-negative integer powers are indeterminates).  Output
//           dump(p) ;; dump(q) ;; dump(ep) ;; dump(eq) ;; eqflag ;; polyflag
//       + "\t#ORACLE:decides" (eq(ep, eq) differs from equality of the dictionaries of p and q)
//       + "\t#ORACLE:polyvalue" (the dictionary of ep differs from that of p, or the one of eq from q)
//   M <m> ;; <n>
//       multinomial_coefficients_mpz(m, n, r): "k1,..,km:c ..." in map order
//       + "\t#ORACLE:multinomial" when the table is not exactly { k : |k| = n } -> n!/prod k_i!
//   S <kind> ;; <recipe e> ;; <recipe k1> ;; <recipe v1> ;; ...        kind in xreplace subs msubs ssubs
//       r1 = kind(e, map, cache = true), r0 = kind(e, map, cache = false).  Output
//           dump(e) ;; <npairs> ;; dump(k1) ;; dump(v1) ;; ... (map order) ;; dump(r1) ;; hash(r1) ;; dump(r0) ;; hash(r0) ;; npoints
//       + "\t#ORACLE:cache" (r1 not eq r0)  "\t#ORACLE:identity" (every v eq its k, result not eq e)
//       + "\t#ORACLE:absent" (all keys are Symbols that the driver's walker does not find in e, result not eq e)
//       + "\t#ORACLE:value ;; <point>" (symbol keys: value of r1 under a valuation differs from the value of e
//         under the valuation updated with the values of the replacements; exact rationals, FunctionSymbols
//         as uninterpreted functions)
// An exception gives EXN:<k> in place of a dump; every case runs in a forked child (CRASH:<sig>, HANG).
#include <sstream>
#include <string>
#include <vector>
#include <map>
#include <set>
#include <iostream>
#include <functional>
#include <algorithm>
#include <limits>
#include <gmpxx.h>
#define private public
#define protected public
#include <symengine/basic.h>
#include <symengine/add.h>
#include <symengine/mul.h>
#include <symengine/pow.h>
#include <symengine/functions.h>
#include <symengine/logic.h>
#include <symengine/sets.h>
#include <symengine/complex.h>
#include <symengine/complex_double.h>
#include <symengine/real_double.h>
#include <symengine/infinity.h>
#include <symengine/nan.h>
#include <symengine/constants.h>
#include <symengine/visitor.h>
#include <symengine/subs.h>
#include <symengine/symengine_exception.h>
#undef private
#undef protected
#include "common.h"
#include "dump.h"
#include "recipe.h"
using namespace SymEngine;

static std::vector<std::string> split_sep(const std::string &s, const std::string &sep)
{
    std::vector<std::string> v;
    size_t st = 0;
    while (true) {
        size_t p = s.find(sep, st);
        if (p == std::string::npos) {
            v.push_back(s.substr(st));
            break;
        }
        v.push_back(s.substr(st, p - st));
        st = p + sep.size();
    }
    return v;
}
static std::string trim(const std::string &s)
{
    size_t a = s.find_first_not_of(" \t");
    if (a == std::string::npos)
        return "";
    size_t b = s.find_last_not_of(" \t");
    return s.substr(a, b - a + 1);
}

// ------------------------------------------------------------------ independent exact evaluation

typedef std::map<std::string, mpq_class> Env;

static mpz_class ZZ(const integer_class &z)
{
    return mpz_class(get_mpz_t(z));
}
static mpq_class QQ(const rational_class &q)
{
    return mpq_class(get_mpq_t(q));
}

// a deterministic pseudo-random small rational from a string and a point number
static mpq_class pseudo(const std::string &s, unsigned pt)
{
    if (pt == 3)
        return mpq_class(0);        // the fourth point: every indeterminate is 0
    uint64_t h = 1469598103934665603ULL ^ (0x9e3779b97f4a7c15ULL * (pt + 1));
    for (unsigned char c : s) {
        h ^= c;
        h *= 1099511628211ULL;
    }
    long num = (long)(h % 23) - 11;
    long den = (long)((h >> 20) % 5) + 1;
    if (num == 0)
        num = 12;
    mpq_class q(num, den);
    q.canonicalize();
    return q;
}

static bool is_posint(const Basic &b, unsigned long &n)
{
    if (!is_a<Integer>(b))
        return false;
    const integer_class &z = down_cast<const Integer &>(b).as_integer_class();
    if (z <= 0 || !mp_fits_ulong_p(z))
        return false;
    n = mp_get_ui(z);
    return true;
}

static bool qpow(const mpq_class &b, const integer_class &e, mpq_class &out)
{
    if (b == 0 || b == 1) {         // any exponent, however large
        if (b == 0 && e < 0)
            return false;
        out = (b == 1 || e == 0) ? 1 : 0;
        return true;
    }
    if (b == -1) {
        out = (e % 2 == 0) ? 1 : -1;
        return true;
    }
    if (!mp_fits_slong_p(e))
        return false;
    long k = mp_get_si(e);
    if (k > 4096 || k < -4096)
        return false;
    mpq_class base = b;
    if (k < 0) {
        if (b == 0)
            return false;
        base = 1 / b;
        k = -k;
    }
    mpq_class r = 1;
    for (long i = 0; i < k; i++)
        r *= base;
    out = r;
    return true;
}

// value of a tree in Q under env.  fs_uninterp: FunctionSymbol applications are uninterpreted functions
// of the values of their arguments; opaque_atoms: every other non-arithmetic node is an indeterminate
// named by its sorted dump (legal when the transformation does not look inside it).
static bool evalq(const Basic &b, const Env &env, unsigned pt, bool opaque_atoms, mpq_class &out)
{
    if (is_a<Integer>(b)) {
        out = mpq_class(ZZ(down_cast<const Integer &>(b).as_integer_class()));
        return true;
    }
    if (is_a<Rational>(b)) {
        out = QQ(down_cast<const Rational &>(b).as_rational_class());
        return true;
    }
    if (is_a_Number(b))
        return false;
    if (is_a<Symbol>(b)) {
        auto it = env.find(down_cast<const Symbol &>(b).get_name());
        if (it == env.end()) {
            out = pseudo("sym:" + down_cast<const Symbol &>(b).get_name(), pt);
            return true;
        }
        out = it->second;
        return true;
    }
    if (is_a<Add>(b)) {
        const Add &a = down_cast<const Add &>(b);
        mpq_class s, t, c;
        if (!evalq(*a.get_coef(), env, pt, opaque_atoms, s))
            return false;
        for (const auto &p : a.get_dict()) {
            if (!evalq(*p.first, env, pt, opaque_atoms, t) || !evalq(*p.second, env, pt, opaque_atoms, c))
                return false;
            s += c * t;
        }
        out = s;
        return true;
    }
    if (is_a<Mul>(b)) {
        const Mul &a = down_cast<const Mul &>(b);
        mpq_class s, t, w;
        if (!evalq(*a.get_coef(), env, pt, opaque_atoms, s))
            return false;
        for (const auto &p : a.get_dict()) {
            if (!is_a<Integer>(*p.second))
                return false;
            if (!evalq(*p.first, env, pt, opaque_atoms, t))
                return false;
            if (!qpow(t, down_cast<const Integer &>(*p.second).as_integer_class(), w))
                return false;
            s *= w;
        }
        out = s;
        return true;
    }
    if (is_a<Pow>(b)) {
        const Pow &p = down_cast<const Pow &>(b);
        mpq_class t;
        if (!is_a<Integer>(*p.get_exp()))
            return false;
        if (!evalq(*p.get_base(), env, pt, opaque_atoms, t))
            return false;
        return qpow(t, down_cast<const Integer &>(*p.get_exp()).as_integer_class(), out);
    }
    if (is_a<FunctionSymbol>(b)) {
        const FunctionSymbol &f = down_cast<const FunctionSymbol &>(b);
        std::string key = "fs:" + f.get_name();
        for (const auto &a : f.get_vec()) {
            mpq_class t;
            if (!evalq(*a, env, pt, opaque_atoms, t))
                return false;
            key += "," + t.get_str();
        }
        out = pseudo(key, pt);
        return true;
    }
    if (opaque_atoms) {
        out = pseudo("atom:" + verif::dump_sorted(b), pt);
        return true;
    }
    return false;
}

// ------------------------------------------------------------------ independent polynomial arithmetic

typedef std::map<std::string, unsigned long> Mono;      // indeterminate -> exponent (> 0)
typedef std::map<Mono, mpq_class> Poly;
static const size_t POLY_LIMIT = 20000;

static void poly_add_term(Poly &p, const Mono &m, const mpq_class &c)
{
    if (c == 0)
        return;
    auto it = p.find(m);
    if (it == p.end())
        p[m] = c;
    else {
        it->second += c;
        if (it->second == 0)
            p.erase(it);
    }
}
static bool poly_mul(const Poly &a, const Poly &b, Poly &out)
{
    out.clear();
    if (a.size() * b.size() > 4 * POLY_LIMIT)
        return false;
    for (const auto &x : a)
        for (const auto &y : b) {
            Mono m = x.first;
            for (const auto &v : y.first)
                m[v.first] += v.second;
            poly_add_term(out, m, x.second * y.second);
        }
    return out.size() <= POLY_LIMIT;
}
static bool poly_pow(const Poly &a, unsigned long n, Poly &out)
{
    if (n > 64)
        return false;
    out.clear();
    out[Mono()] = 1;
    for (unsigned long i = 0; i < n; i++) {
        Poly t;
        if (!poly_mul(out, a, t))
            return false;
        out.swap(t);
    }
    return true;
}
static bool to_poly(const Basic &b, Poly &out)
{
    out.clear();
    if (is_a<Integer>(b) || is_a<Rational>(b)) {
        mpq_class q = is_a<Integer>(b) ? mpq_class(ZZ(down_cast<const Integer &>(b).as_integer_class()))
                                       : QQ(down_cast<const Rational &>(b).as_rational_class());
        poly_add_term(out, Mono(), q);
        return true;
    }
    if (is_a_Number(b))
        return false;
    if (is_a<Add>(b)) {
        const Add &a = down_cast<const Add &>(b);
        Poly c;
        if (!to_poly(*a.get_coef(), c))
            return false;
        out = c;
        for (const auto &p : a.get_dict()) {
            Poly t, cc, prod;
            if (!to_poly(*p.first, t) || !to_poly(*p.second, cc) || !poly_mul(t, cc, prod))
                return false;
            for (const auto &x : prod)
                poly_add_term(out, x.first, x.second);
        }
        return out.size() <= POLY_LIMIT;
    }
    if (is_a<Mul>(b)) {
        const Mul &a = down_cast<const Mul &>(b);
        bool all = true;
        unsigned long n;
        for (const auto &p : a.get_dict())
            if (!is_posint(*p.second, n))
                all = false;
        if (all) {
            Poly acc;
            if (!to_poly(*a.get_coef(), acc))
                return false;
            for (const auto &p : a.get_dict()) {
                Poly t, tp, prod;
                is_posint(*p.second, n);
                if (!to_poly(*p.first, t) || !poly_pow(t, n, tp) || !poly_mul(acc, tp, prod))
                    return false;
                acc.swap(prod);
            }
            out = acc;
            return true;
        }
        return false;     // negative / symbolic exponents: not a polynomial
    }
    if (is_a<Pow>(b)) {
        const Pow &p = down_cast<const Pow &>(b);
        unsigned long n;
        if (is_posint(*p.get_exp(), n)) {
            Poly t;
            return to_poly(*p.get_base(), t) && poly_pow(t, n, out);
        }
        return false;
    }
    // symbols, constants, function applications ...: an indeterminate
    Mono m;
    m[verif::dump_sorted(b)] = 1;
    out[m] = 1;
    return true;
}

// ------------------------------------------------------------------ "expanded" (own walker)

static bool is_expanded(const Basic &b)
{
    unsigned long n;
    if (is_a<Add>(b)) {
        for (const auto &p : down_cast<const Add &>(b).get_dict())
            if (!is_expanded(*p.first))
                return false;
        return true;
    }
    if (is_a<Mul>(b)) {
        for (const auto &p : down_cast<const Mul &>(b).get_dict()) {
            if (is_a<Add>(*p.first) && is_posint(*p.second, n))
                return false;
            if (!is_expanded(*p.first))
                return false;
        }
        return true;
    }
    if (is_a<Pow>(b)) {
        const Pow &p = down_cast<const Pow &>(b);
        if (is_a<Add>(*p.get_base()) && is_posint(*p.get_exp(), n))
            return false;
        return is_expanded(*p.get_base());
    }
    return true;
}

// ------------------------------------------------------------------ modes

static std::string hash_str(const Basic &b)
{
    return std::to_string((unsigned long long)b.hash());
}

static std::string mode_X(const std::string &rest)
{
    auto f = split_sep(rest, " ;; ");
    if (f.size() < 2)
        return "BADLINE";
    bool deep = trim(f[0]) == "1";
    RCP<const Basic> e;
    try {
        e = verif::eval_recipe(trim(f[1]));
    } catch (...) {
        return "RECIPE-" + verif::exn_name();
    }
    std::string out = verif::dump(*e) + " ;; ";
    RCP<const Basic> r, r2;
    try {
        r = expand(e, deep);
    } catch (...) {
        return out + verif::exn_name();
    }
    out += verif::dump(*r) + " ;; " + hash_str(*r);
    std::string oracle;
    bool idem = true;
    try {
        r2 = expand(r, deep);
        idem = eq(*r, *r2);
        if (!idem)
            oracle += "\t#ORACLE:idem ;; " + verif::dump(*r2);
    } catch (...) {
        idem = false;
        oracle += "\t#ORACLE:idem ;; " + verif::exn_name();
    }
    bool complete = !deep || is_expanded(*r);
    if (!complete)
        oracle += "\t#ORACLE:complete";
    unsigned npts = 0;
    for (unsigned pt = 0; pt < 4; pt++) {
        Env env;
        mpq_class a, b;
        if (evalq(*e, env, pt, true, a) && evalq(*r, env, pt, true, b)) {
            npts++;
            if (a != b) {
                oracle += "\t#ORACLE:value ;; point " + std::to_string(pt) + ": input " + a.get_str() + ", result "
                          + b.get_str();
                break;
            }
        }
    }
    out += std::string(" ;; ") + (idem ? "1" : "0") + " ;; " + (complete ? "1" : "0") + " ;; " + std::to_string(npts);
    return out + oracle;
}

static std::string mode_D(const std::string &rest)
{
    auto f = split_sep(rest, " ;; ");
    if (f.size() < 2)
        return "BADLINE";
    RCP<const Basic> p, q, ep, eq_;
    try {
        p = verif::eval_recipe(trim(f[0]));
        q = verif::eval_recipe(trim(f[1]));
    } catch (...) {
        return "RECIPE-" + verif::exn_name();
    }
    std::string out = verif::dump(*p) + " ;; " + verif::dump(*q) + " ;; ";
    try {
        ep = expand(p);
        eq_ = expand(q);
    } catch (...) {
        return out + verif::exn_name();
    }
    out += verif::dump(*ep) + " ;; " + verif::dump(*eq_);
    Poly pp, pq, pep, peq;
    if (!to_poly(*p, pp) || !to_poly(*q, pq))
        return out + " ;; - ;; NOTPOLY";
    bool eqflag = eq(*ep, *eq_);
    bool polyflag = pp == pq;
    out += std::string(" ;; ") + (eqflag ? "1" : "0") + " ;; " + (polyflag ? "1" : "0");
    if (eqflag != polyflag)
        out += "\t#ORACLE:decides";
    if (!to_poly(*ep, pep) || !to_poly(*eq_, peq) || !(pep == pp) || !(peq == pq))
        out += "\t#ORACLE:polyvalue";
    return out;
}

static std::string mode_M(const std::string &rest)
{
    auto f = split_sep(rest, " ;; ");
    if (f.size() < 2)
        return "BADLINE";
    unsigned m = (unsigned)std::stoul(trim(f[0])), n = (unsigned)std::stoul(trim(f[1]));
    map_vec_mpz r;
    try {
        multinomial_coefficients_mpz(m, n, r);
    } catch (...) {
        return verif::exn_name();
    }
    std::string out;
    bool ok = true;
    // n!
    mpz_class nf = 1;
    for (unsigned i = 2; i <= n; i++)
        nf *= i;
    for (const auto &p : r) {
        if (!out.empty())
            out += " ";
        unsigned long w = 0;
        mpz_class den = 1;
        for (size_t i = 0; i < p.first.size(); i++) {
            out += (i ? "," : "") + std::to_string(p.first[i]);
            w += p.first[i];
            for (unsigned k = 2; k <= p.first[i]; k++)
                den *= k;
        }
        out += ":" + ZZ(p.second).get_str();
        if (p.first.size() != m || w != n || ZZ(p.second) * den != nf)
            ok = false;
    }
    // the number of weak compositions of n into m parts
    mpz_class cnt = 1;
    for (unsigned i = 1; i + 1 <= m; i++) {
        cnt *= (n + i);
        cnt /= i;
    }
    if (cnt != mpz_class((unsigned long)r.size()))
        ok = false;
    return out + (ok ? "" : "\t#ORACLE:multinomial");
}

static bool occurs_symbol(const Basic &b, const std::string &name)
{
    if (is_a<Symbol>(b))
        return down_cast<const Symbol &>(b).get_name() == name;
    for (const auto &a : b.get_args())
        if (occurs_symbol(*a, name))
            return true;
    return false;
}

static bool has_function(const Basic &b)
{
    if (is_a_Number(b) || is_a<Symbol>(b))
        return false;
    if (!(is_a<Add>(b) || is_a<Mul>(b) || is_a<Pow>(b) || is_a<FunctionSymbol>(b)))
        return true;
    for (const auto &a : b.get_args())
        if (has_function(*a))
            return true;
    return false;
}

static RCP<const Basic> run_kind(const std::string &kind, const RCP<const Basic> &e, const map_basic_basic &m,
                                 bool cache)
{
    if (kind == "xreplace")
        return xreplace(e, m, cache);
    if (kind == "subs")
        return subs(e, m, cache);
    if (kind == "msubs")
        return msubs(e, m, cache);
    if (kind == "ssubs")
        return ssubs(e, m, cache);
    throw std::runtime_error("unknown kind " + kind);
}

static std::string mode_S(const std::string &rest)
{
    auto f = split_sep(rest, " ;; ");
    if (f.size() < 2)
        return "BADLINE";
    std::string kind = trim(f[0]);
    RCP<const Basic> e;
    map_basic_basic m;
    try {
        e = verif::eval_recipe(trim(f[1]));
        for (size_t i = 2; i + 1 < f.size(); i += 2)
            m[verif::eval_recipe(trim(f[i]))] = verif::eval_recipe(trim(f[i + 1]));
    } catch (...) {
        return "RECIPE-" + verif::exn_name();
    }
    std::string out = verif::dump(*e) + " ;; " + std::to_string(m.size());
    bool identity = true, symkeys = true, absent = true;
    for (const auto &p : m) {
        out += " ;; " + verif::dump(*p.first) + " ;; " + verif::dump(*p.second);
        if (!eq(*p.first, *p.second))
            identity = false;
        if (!is_a<Symbol>(*p.first))
            symkeys = false;
        else if (occurs_symbol(*e, down_cast<const Symbol &>(*p.first).get_name()))
            absent = false;
    }
    RCP<const Basic> r1, r0;
    std::string s1, s0;
    try {
        r1 = run_kind(kind, e, m, true);
        s1 = verif::dump(*r1) + " ;; " + hash_str(*r1);
    } catch (...) {
        s1 = verif::exn_name() + " ;; -";
    }
    try {
        r0 = run_kind(kind, e, m, false);
        s0 = verif::dump(*r0) + " ;; " + hash_str(*r0);
    } catch (...) {
        s0 = verif::exn_name() + " ;; -";
    }
    out += " ;; " + s1 + " ;; " + s0;
    std::string oracle;
    if (r1.is_null() != r0.is_null() || (!r1.is_null() && !eq(*r1, *r0)))
        oracle += "\t#ORACLE:cache";
    unsigned npts = 0;
    if (!r1.is_null()) {
        if (identity && !eq(*r1, *e))
            oracle += "\t#ORACLE:identity";
        if (symkeys && absent && !eq(*r1, *e))
            oracle += "\t#ORACLE:absent";
        if (symkeys && !has_function(*e)) {
            for (unsigned pt = 0; pt < 4; pt++) {
                Env env, env2;
                bool ok = true;
                for (const auto &p : m) {
                    mpq_class v;
                    if (has_function(*p.second) || !evalq(*p.second, env, pt, false, v)) {
                        ok = false;
                        break;
                    }
                    env2[down_cast<const Symbol &>(*p.first).get_name()] = v;
                }
                mpq_class a, b;
                if (ok && evalq(*e, env2, pt, false, a) && evalq(*r1, env, pt, false, b)) {
                    npts++;
                    if (a != b) {
                        oracle += "\t#ORACLE:value ;; point " + std::to_string(pt) + ": expected " + a.get_str()
                                  + ", result " + b.get_str();
                        break;
                    }
                }
            }
        }
    }
    return out + " ;; " + std::to_string(npts) + oracle;
}

int main()
{
    std::string line;
    while (std::getline(std::cin, line)) {
        if (line.size() < 2) {
            std::cout << "BADLINE" << std::endl;
            continue;
        }
        char mode = line[0];
        std::string rest = line.substr(2);
        std::string res = verif::run_forked([&]() -> std::string {
            try {
                switch (mode) {
                    case 'X':
                        return mode_X(rest);
                    case 'D':
                        return mode_D(rest);
                    case 'M':
                        return mode_M(rest);
                    case 'S':
                        return mode_S(rest);
                    default:
                        return "BADMODE";
                }
            } catch (...) {
                return "UNCAUGHT-" + verif::exn_name();
            }
        }, 30);
        for (auto &c : res)
            if (c == '\n')
                c = ' ';
        std::cout << res << std::endl;
    }
    return 0;
}
