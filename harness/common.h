// Shared helpers for the correspondence drivers.
// Each case runs in a forked child: a crash (signal), an abort (libstdc++ assertion,
// SYMENGINE_ASSERT) or a hang is an observable result instead of the end of the run.
#pragma once
#include <cstdio>
#include <cstdlib>
#include <cstring>
#include <string>
#include <vector>
#include <sstream>
#include <iostream>
#include <functional>
#include <unistd.h>
#include <signal.h>
#include <sys/wait.h>
#include <sys/time.h>
#include <sys/resource.h>
#include <fcntl.h>

namespace verif
{

inline std::string run_forked(const std::function<std::string()> &f, unsigned timeout_s = 20)
{
    int fd[2];
    if (pipe(fd) != 0)
        return "PIPEFAIL";
    fflush(stdout);
    pid_t pid = fork();
    if (pid == 0) {
        close(fd[0]);
        alarm(timeout_s);
        struct rlimit rl;
        rl.rlim_cur = rl.rlim_max = 0;
        setrlimit(RLIMIT_CORE, &rl);
        // send libstdc++/abort chatter nowhere
        int devnull = open("/dev/null", 1);
        (void)devnull;
        std::string s;
        try {
            s = f();
        } catch (...) {
            s = "UNCAUGHT";
        }
        size_t off = 0;
        while (off < s.size()) {
            ssize_t w = write(fd[1], s.data() + off, s.size() - off);
            if (w <= 0)
                break;
            off += (size_t)w;
        }
        close(fd[1]);
        _exit(0);
    }
    close(fd[1]);
    std::string out;
    char buf[65536];
    ssize_t r;
    while ((r = read(fd[0], buf, sizeof buf)) > 0)
        out.append(buf, (size_t)r);
    close(fd[0]);
    int status = 0;
    waitpid(pid, &status, 0);
    if (WIFSIGNALED(status)) {
        int sig = WTERMSIG(status);
        if (sig == SIGALRM)
            return out + "HANG";
        return out + "CRASH:" + std::to_string(sig);
    }
    return out;
}

// true when f() runs to completion in a forked child (no signal, no timeout); used to skip
// inputs on which an unrelated part of the library crashes
inline bool survives(const std::function<void()> &f, unsigned timeout_s = 10)
{
    fflush(stdout);
    pid_t pid = fork();
    if (pid == 0) {
        alarm(timeout_s);
        struct rlimit rl;
        rl.rlim_cur = rl.rlim_max = 0;
        setrlimit(RLIMIT_CORE, &rl);
        try {
            f();
        } catch (...) {
        }
        _exit(0);
    }
    int status = 0;
    waitpid(pid, &status, 0);
    return WIFEXITED(status);
}

// which of the n items can be processed without killing the process: items are run in order in
// a forked child that reports progress through a pipe; after a crash at item k the scan resumes
// at k+1 in a fresh child.  Typically one fork for the whole batch.
inline std::vector<bool> survivors(size_t n, const std::function<void(size_t)> &f,
                                   unsigned timeout_s = 20)
{
    std::vector<bool> ok(n, true);
    size_t start = 0;
    while (start < n) {
        int fd[2];
        if (pipe(fd) != 0)
            break;
        fflush(stdout);
        pid_t pid = fork();
        if (pid == 0) {
            close(fd[0]);
            struct rlimit rl;
            rl.rlim_cur = rl.rlim_max = 0;
            setrlimit(RLIMIT_CORE, &rl);
            for (size_t i = start; i < n; i++) {
                alarm(timeout_s);
                try {
                    f(i);
                } catch (...) {
                }
                char c = 1;
                if (write(fd[1], &c, 1) != 1)
                    break;
            }
            _exit(0);
        }
        close(fd[1]);
        size_t done = 0;
        char buf[256];
        ssize_t r;
        while ((r = read(fd[0], buf, sizeof buf)) > 0)
            done += (size_t)r;
        close(fd[0]);
        int status = 0;
        waitpid(pid, &status, 0);
        if (start + done >= n)
            break;
        ok[start + done] = false; // the item being processed when the child died
        start = start + done + 1;
    }
    return ok;
}

// exception classes as numbered in coq/Base/Prelude.v (EXN_*); use inside catch blocks:
//   try { ... } catch (...) { return verif::exn_name(); }
inline std::string exn_name();

inline std::vector<std::string> split_ws(const std::string &s)
{
    std::vector<std::string> v;
    std::istringstream is(s);
    std::string t;
    while (is >> t)
        v.push_back(t);
    return v;
}

} // namespace verif

#ifdef SYMENGINE_EXCEPTION_H
namespace verif
{
inline std::string exn_name()
{
    try {
        throw;
    } catch (const SymEngine::NotImplementedError &) {
        return "EXN:1";
    } catch (const SymEngine::DomainError &) {
        return "EXN:2";
    } catch (const SymEngine::DivisionByZeroError &) {
        return "EXN:3";
    } catch (const SymEngine::ParseError &) {
        return "EXN:4";
    } catch (const SymEngine::SerializationError &) {
        return "EXN:5";
    } catch (const SymEngine::SymEngineException &) {
        return "EXN:6";
    } catch (const std::exception &) {
        return "EXN:7";
    } catch (...) {
        return "EXN:8";
    }
}
} // namespace verif
#endif
