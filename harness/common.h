// Shared helpers for the correspondence drivers.
// Each case runs in a forked child: a crash (signal), an abort (libstdc++ assertion,
// SYMENGINE_ASSERT) or a hang is an observable result instead of the end of the run.
#pragma once
#include <cstdio>
#include <cstdlib>
#include <cstring>
#include <string>
#include <vector>
#include <sstream>
#include <iostream>
#include <functional>
#include <unistd.h>
#include <signal.h>
#include <sys/wait.h>
#include <sys/time.h>
#include <sys/resource.h>
#include <fcntl.h>

namespace verif
{

inline std::string run_forked(const std::function<std::string()> &f, unsigned timeout_s = 20)
{
    int fd[2];
    if (pipe(fd) != 0)
        return "PIPEFAIL";
    fflush(stdout);
    pid_t pid = fork();
    if (pid == 0) {
        close(fd[0]);
        alarm(timeout_s);
        struct rlimit rl;
        rl.rlim_cur = rl.rlim_max = 0;
        setrlimit(RLIMIT_CORE, &rl);
        // send libstdc++/abort chatter nowhere
        int devnull = open("/dev/null", 1);
        (void)devnull;
        std::string s;
        try {
            s = f();
        } catch (...) {
            s = "UNCAUGHT";
        }
        size_t off = 0;
        while (off < s.size()) {
            ssize_t w = write(fd[1], s.data() + off, s.size() - off);
            if (w <= 0)
                break;
            off += (size_t)w;
        }
        close(fd[1]);
        _exit(0);
    }
    close(fd[1]);
    std::string out;
    char buf[65536];
    ssize_t r;
    while ((r = read(fd[0], buf, sizeof buf)) > 0)
        out.append(buf, (size_t)r);
    close(fd[0]);
    int status = 0;
    waitpid(pid, &status, 0);
    if (WIFSIGNALED(status)) {
        int sig = WTERMSIG(status);
        if (sig == SIGALRM)
            return out + "HANG";
        return out + "CRASH:" + std::to_string(sig);
    }
    return out;
}

// exception classes as numbered in coq/Base/Prelude.v (EXN_*); use inside catch blocks:
//   try { ... } catch (...) { return verif::exn_name(); }
inline std::string exn_name();

inline std::vector<std::string> split_ws(const std::string &s)
{
    std::vector<std::string> v;
    std::istringstream is(s);
    std::string t;
    while (is >> t)
        v.push_back(t);
    return v;
}

} // namespace verif

#ifdef SYMENGINE_EXCEPTION_H
namespace verif
{
inline std::string exn_name()
{
    try {
        throw;
    } catch (const SymEngine::NotImplementedError &) {
        return "EXN:1";
    } catch (const SymEngine::DomainError &) {
        return "EXN:2";
    } catch (const SymEngine::DivisionByZeroError &) {
        return "EXN:3";
    } catch (const SymEngine::ParseError &) {
        return "EXN:4";
    } catch (const SymEngine::SerializationError &) {
        return "EXN:5";
    } catch (const SymEngine::SymEngineException &) {
        return "EXN:6";
    } catch (const std::exception &) {
        return "EXN:7";
    } catch (...) {
        return "EXN:8";
    }
}
} // namespace verif
#endif
