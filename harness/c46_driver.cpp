// C46 driver: runs homogeneous_lde on the library and prints the same canonical line as
// the extracted model (ocaml/c46_main.ml: the part before the first tab), followed by a tab
// and "#ORACLE:<what>" when the returned set is not the set of minimal non-zero
// non-negative solutions (checked by brute force, independent of the model).
// input : p q box n0  a_11 .. a_pq  [ w x_1 .. x_w ]*n0          (see ocaml/c46_main.ml)
//     or  M q n  t_1 .. t_q  b_11 .. b_nq     (unit level: is_minimum / order, with their own oracle)
#include <symengine/symengine_exception.h>
#include "common.h"
#include <symengine/diophantine.h>
#include <symengine/integer.h>
#include <algorithm>
using namespace SymEngine;

// the two helpers of diophantine.cpp have external linkage but no declaration in the header
namespace SymEngine
{
bool order(const DenseMatrix &t, const std::vector<DenseMatrix> &basis, unsigned k);
bool is_minimum(const DenseMatrix &t, const std::vector<DenseMatrix> &basis, unsigned n);
} // namespace SymEngine

typedef std::vector<long long> vec;

static std::string show(const vec &v)
{
    std::ostringstream o;
    for (size_t i = 0; i < v.size(); i++)
        o << (i ? "," : "") << v[i];
    return o.str();
}

static bool is_sol(const std::vector<vec> &A, const vec &x)
{
    for (const vec &r : A) {
        __int128 s = 0; // entries up to 2^62 times small solution entries
        for (size_t k = 0; k < r.size(); k++)
            s += (__int128)r[k] * (__int128)x[k];
        if (s != 0)
            return false;
    }
    return true;
}
static bool is_zero(const vec &x)
{
    for (long long a : x)
        if (a != 0)
            return false;
    return true;
}
static bool le(const vec &x, const vec &y)
{
    for (size_t k = 0; k < x.size(); k++)
        if (x[k] > y[k])
            return false;
    return true;
}
// odometer over the box [0,hi_0] x ... ; returns false when exhausted
static bool next(vec &x, const vec &hi)
{
    for (size_t k = 0; k < x.size(); k++) {
        if (x[k] < hi[k]) {
            x[k]++;
            return true;
        }
        x[k] = 0;
    }
    return false;
}

// M q n  t_1 .. t_q  b_11 .. b_nq : is_minimum(t, basis, n) and order(t, basis, k), k < n
static std::string run_min(const std::vector<std::string> &t)
{
    size_t pos = 1;
    auto rd = [&]() -> long long {
        if (pos >= t.size())
            throw std::runtime_error("short line");
        return std::stoll(t[pos++]);
    };
    unsigned q = (unsigned)rd(), n = (unsigned)rd();
    vec tv(q);
    DenseMatrix T(1, q);
    for (unsigned j = 0; j < q; j++) {
        tv[j] = rd();
        T.set(0, j, integer(tv[j]));
    }
    std::vector<DenseMatrix> basis;
    std::vector<vec> bv(n, vec(q));
    for (unsigned k = 0; k < n; k++) {
        DenseMatrix b(1, q);
        for (unsigned j = 0; j < q; j++) {
            bv[k][j] = rd();
            b.set(0, j, integer(bv[k][j]));
        }
        basis.push_back(b);
    }
    bool m = is_minimum(T, basis, n);
    std::ostringstream o, oracle;
    o << "m:" << (m ? 1 : 0) << ";o:";
    bool any_below = false;
    for (unsigned k = 0; k < n; k++) {
        bool ok = order(T, basis, k);
        o << (ok ? 1 : 0);
        bool below = true, equal = true; // b_k <= t componentwise, b_k == t
        for (unsigned j = 0; j < q; j++) {
            if (bv[k][j] > tv[j])
                below = false;
            if (bv[k][j] != tv[j])
                equal = false;
        }
        bool strictly = below && !equal;
        any_below = any_below || strictly;
        if (ok != strictly)
            oracle << " order: order(t, basis, " << k << ") = " << ok << " but 'basis[k] strictly below t' is " << strictly << ";";
    }
    if (m == any_below)
        oracle << " is_minimum: is_minimum = " << m << " but 'some basis element strictly below t' is " << any_below << ";";
    std::string s = o.str();
    if (!oracle.str().empty())
        s += "\t#ORACLE:" + oracle.str();
    return s;
}

static std::string run_case(const std::string &line)
{
    std::vector<std::string> t = verif::split_ws(line);
    if (!t.empty() && t[0] == "M")
        return run_min(t);
    if (t.size() < 4)
        return "BADLINE";
    size_t pos = 0;
    auto rd = [&]() -> long long {
        if (pos >= t.size())
            throw std::runtime_error("short line");
        return std::stoll(t[pos++]);
    };
    unsigned p = (unsigned)rd(), q = (unsigned)rd();
    long long box = rd();
    unsigned n0 = (unsigned)rd();
    std::vector<vec> A(p, vec(q));
    DenseMatrix M(p, q);
    for (unsigned i = 0; i < p; i++)
        for (unsigned j = 0; j < q; j++) {
            A[i][j] = rd();
            M.set(i, j, integer(A[i][j]));
        }
    std::vector<DenseMatrix> basis;
    for (unsigned k = 0; k < n0; k++) {
        unsigned w = (unsigned)rd();
        DenseMatrix b(1, w);
        for (unsigned j = 0; j < w; j++)
            b.set(0, j, integer(rd()));
        basis.push_back(b);
    }
    try {
        homogeneous_lde(basis, M);
    } catch (...) {
        return verif::exn_name();
    }
    std::ostringstream o, oracle;
    std::vector<vec> got;
    bool shape_ok = true;
    o << "B:";
    for (size_t k = 0; k < basis.size(); k++) {
        const DenseMatrix &b = basis[k];
        vec v;
        if (b.nrows() != 1)
            shape_ok = false;
        for (unsigned j = 0; j < b.ncols(); j++) {
            RCP<const Basic> e = b.get(0, j);
            if (e.is_null() || !is_a<Integer>(*e)) {
                shape_ok = false;
                v.push_back(0);
                continue;
            }
            const integer_class &z = down_cast<const Integer &>(*e).as_integer_class();
            if (!mp_fits_slong_p(z)) {
                shape_ok = false;
                v.push_back(0);
                continue;
            }
            v.push_back(mp_get_si(z));
        }
        o << (k ? "|" : "") << show(v);
        got.push_back(v);
    }
    if (n0 == 0) {
        // ---- the property, by brute force ----
        if (!shape_ok)
            oracle << " unsound: an element is not a 1 x q matrix of machine-size Integers;";
        for (size_t k = 0; k < got.size() && shape_ok; k++) {
            const vec &v = got[k];
            bool nonneg = true;
            for (long long a : v)
                if (a < 0)
                    nonneg = false;
            if (v.size() != q || !nonneg || is_zero(v) || !is_sol(A, v)) {
                oracle << " unsound: " << show(v) << " is not a non-zero non-negative solution;";
                continue;
            }
            for (size_t l = 0; l < k; l++)
                if (got[l] == v) {
                    oracle << " duplicate: " << show(v) << " is returned twice;";
                    break;
                }
            // minimality: no other non-zero solution below v
            double vol = 1;
            for (long long a : v)
                vol *= (double)(a + 1);
            if (vol <= 3e5 && q > 0) {
                vec y(q, 0);
                while (next(y, v)) {
                    if (y != v && is_sol(A, y)) {
                        oracle << " not-minimal: " << show(v) << " is above the solution " << show(y) << ";";
                        break;
                    }
                }
            }
        }
        // completeness inside the box
        if (q > 0 && shape_ok) {
            std::vector<vec> sols;
            vec hi(q, box), x(q, 0);
            while (next(x, hi))
                if (is_sol(A, x))
                    sols.push_back(x);
            for (const vec &s : sols) {
                bool minimal = true;
                for (const vec &y : sols)
                    if (y != s && le(y, s)) {
                        minimal = false;
                        break;
                    }
                if (minimal && std::find(got.begin(), got.end(), s) == got.end())
                    oracle << " missing: the minimal solution " << show(s) << " is not returned;";
            }
        }
    }
    std::string s = o.str();
    if (!oracle.str().empty())
        s += "\t#ORACLE:" + oracle.str();
    return s;
}

static std::string guarded(const std::string &line)
{
    try {
        return run_case(line);
    } catch (const std::exception &e) {
        return std::string("BADLINE:") + e.what();
    }
}

// fork() is expensive here: run the cases in batches of 32 per child; a batch in which
// anything crashed or hung is split in halves until the failing case runs alone.
static std::vector<std::string> lines;

static void run_range(size_t b, size_t e)
{
    if (e - b == 1) {
        std::cout << verif::run_forked([&]() { return guarded(lines[b]); }, 6) << "\n";
        return;
    }
    std::string r = verif::run_forked(
        [&]() {
            std::string all;
            for (size_t k = b; k < e; k++)
                all += guarded(lines[k]) + "\n";
            return all;
        },
        12);
    size_t nl = std::count(r.begin(), r.end(), '\n');
    if (nl == e - b && !r.empty() && r.back() == '\n') {
        std::cout << r;
        return;
    }
    if (r.size() >= 4 && r.compare(r.size() - 4, 4, "HANG") == 0) {
        // a time-out: run every case of the batch alone (bisecting would pay the time-out at each level)
        for (size_t k = b; k < e; k++)
            run_range(k, k + 1);
        return;
    }
    size_t mid = b + (e - b) / 2;
    run_range(b, mid);
    run_range(mid, e);
}

int main()
{
    std::string line;
    while (std::getline(std::cin, line))
        lines.push_back(line);
    const size_t BATCH = 32;
    for (size_t b = 0; b < lines.size(); b += BATCH)
        run_range(b, std::min(lines.size(), b + BATCH));
    return 0;
}
